// drv.h -- generic case driver for the detsched harnesses.  One harness binary has four roles:
//   run                      child: read one case on stdin, execute it under vs_rt, print R/S lines
//   drive --seed S --programs N --scheds K [--tso] [--enum CLS] [--replay-dir D]
//                            parent: generate programs (choice-sequence generator, Hypothesis
//                            style), K schedules per program, fork+exec a fresh ASLR-free child per
//                            case, judge, shrink failures on the choice sequence, print JSON summary
//   gen --seed S --programs N          print generated cases (debugging / evidence samples)
//   replay FILE              re-execute a saved case 1x, exit 1 if it is a violation
// The harness TU defines:  const char* H_PROP;  std::string h_gen(Src&);  void h_run(Case&);
#pragma once
#include <sys/personality.h>
#include <sys/wait.h>
#include <sys/stat.h>
#include <poll.h>
#include <fcntl.h>
#include <spawn.h>
#include "../vs/vs_api.h"

// ---------------------------------------------------------------------------------------------
// choice source: all randomness of a generated case goes through here, so that a case is a pure
// function of a choice sequence, and shrinking = simplifying that sequence.
// ---------------------------------------------------------------------------------------------
struct GenOverrun {};      // thrown when a generator keeps asking for choices far beyond a replayed tape (rejection loop on an all-zero tail)
struct Src {
    std::vector<uint32_t> in, out; size_t pos = 0; bool replay = false; uint64_t rng = 1;
    explicit Src(uint64_t seed) { rng = seed * 0x9E3779B97F4A7C15ull + 0xD1B54A32D192ED03ull; if (!rng) rng = 1; for (int i = 0; i < 4; i++) next(); }
    explicit Src(const std::vector<uint32_t>& t) : in(t), replay(true) {}
    uint64_t next() { rng ^= rng << 13; rng ^= rng >> 7; rng ^= rng << 17; return rng; }
    // uniform in [0,n); 0 is always the "simplest" choice
    uint32_t choose(uint32_t n) {
        if (n <= 1) return 0;
        uint32_t v;
        if (replay) { v = pos < in.size() ? in[pos] % n : 0; pos++; if (pos > in.size() + 100000) throw GenOverrun(); }
        else v = (uint32_t)((next() >> 20) % n);
        out.push_back(v); return v;
    }
    int range(int lo, int hi) { return lo + (int)choose((uint32_t)(hi - lo + 1)); }   // inclusive
    bool coin(uint32_t one_in) { return choose(one_in) == one_in - 1; }              // true with prob 1/one_in, false is simplest
    bool flip() { return choose(2) == 1; }
    template <class T> const T& pick(const std::vector<T>& v) { return v[choose((uint32_t)v.size())]; }
    uint32_t weighted(std::initializer_list<uint32_t> w) {   // index chosen with the given weights
        uint32_t tot = 0; for (auto x : w) tot += x; uint32_t r = choose(tot), i = 0;
        for (auto x : w) { if (r < x) return i; r -= x; i++; } return 0;
    }
};

struct Case {
    std::vector<std::string> lines;  // program lines (without the sched line)
    std::string sched;               // "strat=... seed=..." (without the leading "sched ")
    std::string text() const { std::string s; for (auto& l : lines) s += l + "\n"; s += "sched " + sched + "\n"; return s; }
};

// extra words given to `drive` / `gen` after the standard options (e.g. --witness): visible to h_gen
static std::vector<std::string> g_drv_args;
static inline bool drv_flag(const char* f) { for (auto& a : g_drv_args) if (a == f) return true; return false; }
extern const char* H_PROP;
extern bool H_TSO;                  // harness allows mem=tso schedules
std::string h_gen(Src&);            // program text (lines separated by \n)
void h_run(Case&);                  // child role; must call vs_begin(c.sched.c_str()) and end in vs_ok()/vs_violation()

static inline std::vector<std::string> split_lines(const std::string& s) {
    std::vector<std::string> r; size_t p = 0;
    while (p < s.size()) { size_t e = s.find('\n', p); if (e == std::string::npos) e = s.size(); if (e > p) r.push_back(s.substr(p, e - p)); p = e + 1; }
    return r;
}
static inline std::vector<std::string> split_ws(const std::string& s) {
    std::vector<std::string> r; std::istringstream is(s); std::string t; while (is >> t) r.push_back(t); return r;
}
static inline long kvl(const std::string& line, const char* key, long def) {
    std::string k = std::string(" ") + key + "="; std::string l = " " + line; size_t p = l.find(k);
    return p == std::string::npos ? def : atol(l.c_str() + p + k.size());
}
static inline std::string kvs(const std::string& line, const char* key, const char* def) {
    std::string k = std::string(" ") + key + "="; std::string l = " " + line; size_t p = l.find(k);
    if (p == std::string::npos) return def; size_t e = l.find(' ', p + 1);
    return l.substr(p + k.size(), e == std::string::npos ? std::string::npos : e - p - k.size());
}
static inline uint64_t fnv(const std::string& s) { uint64_t h = 1469598103934665603ull; for (unsigned char c : s) { h ^= c; h *= 1099511628211ull; } return h; }

// ---------------------------------------------------------------------------------------------
// child execution
// ---------------------------------------------------------------------------------------------
struct Result {
    std::string verdict = "NONE", kind, detail, stats_line, tape_line, err;
    std::map<std::string, long> st; std::string cls;
    bool violation() const { return verdict == "VIOLATION"; }
};
static inline void parse_stats(Result& r) {
    for (auto& t : split_ws(r.stats_line)) { size_t e = t.find('='); if (e == std::string::npos) continue; std::string k = t.substr(0, e), v = t.substr(e + 1); if (k == "cls") r.cls = v; else r.st[k] = atol(v.c_str()); }
}
static bool g_child_trace = false;
static inline Result run_child(const std::string& text, int wall_kill_s = 45) {
    Result r; int in[2], outp[2], errp[2];
    if (pipe(in) || pipe(outp) || pipe(errp)) { r.verdict = "INCONCLUSIVE"; r.kind = "PIPE"; return r; }
    pid_t pid = fork();
    if (pid == 0) {
        dup2(in[0], 0); dup2(outp[1], 1); dup2(errp[1], 2);
        for (int fd = 3; fd < 64; fd++) close(fd);
        personality(ADDR_NO_RANDOMIZE);
        char* const argv[] = { (char*)"harness", (char*)"run", nullptr };
        // fixed environment of fixed size (the trace switch only changes one character)
        char* const envp[] = { (char*)"PATH=/usr/bin:/bin", (char*)"TBB_VERSION=0", (char*)"LC_ALL=C", (char*)(g_child_trace ? "VS_TRACE_DUMP=1" : "VS_TRACE_NONE=1"), nullptr };
        execve("/proc/self/exe", argv, envp);
        _exit(127);
    }
    close(in[0]); close(outp[1]); close(errp[1]);
    { const char* p = text.c_str(); size_t n = text.size(); while (n) { ssize_t w = write(in[1], p, n); if (w <= 0) break; p += w; n -= (size_t)w; } close(in[1]); }
    std::string so, se; struct pollfd pf[2] = { { outp[0], POLLIN, 0 }, { errp[0], POLLIN, 0 } }; int open_n = 2; bool killed = false;
    time_t t0 = time(nullptr);
    while (open_n > 0) {
        int pr = poll(pf, 2, 1000);
        if (time(nullptr) - t0 > wall_kill_s && !killed) { kill(pid, SIGKILL); killed = true; }
        if (pr <= 0) continue;
        for (int i = 0; i < 2; i++) if (pf[i].fd >= 0 && (pf[i].revents & (POLLIN | POLLHUP | POLLERR))) {
            char b[4096]; ssize_t n = read(pf[i].fd, b, sizeof b);
            if (n > 0) { (i == 0 ? so : se).append(b, (size_t)n); if (se.size() > 400000) se.erase(0, se.size() - 200000); }
            else { close(pf[i].fd); pf[i].fd = -1; open_n--; }
        }
    }
    int status = 0; waitpid(pid, &status, 0);
    for (auto& l : split_lines(so)) {
        if (l.rfind("R ", 0) == 0) { auto w = split_ws(l); if (w.size() >= 2) r.verdict = w[1]; if (w.size() >= 3) r.kind = w[2]; size_t p = l.find(r.kind); r.detail = (w.size() >= 4 && p != std::string::npos) ? l.substr(p + r.kind.size() + 1) : ""; }
        else if (l.rfind("S ", 0) == 0) r.stats_line = l.substr(2);
        else if (l.rfind("T ", 0) == 0) r.tape_line = l.substr(2);
    }
    parse_stats(r);
    size_t keep = g_child_trace ? 200000 : 600; std::string tail = se.size() > keep ? se.substr(se.size() - keep) : se; if (!g_child_trace) for (auto& c : tail) if (c == '\n') c = ' ';
    r.err = tail;
    if (r.verdict == "NONE") {
        if (killed) { r.verdict = "INCONCLUSIVE"; r.kind = "PARENT-KILL"; }
        else if (WIFSIGNALED(status)) {
            int sg = WTERMSIG(status); r.verdict = "VIOLATION";
            r.kind = (sg == SIGABRT && tail.find("Assertion") != std::string::npos) ? "ASSERT" : "CRASH";
            r.detail = "signal " + std::to_string(sg) + " " + tail;
        } else { r.verdict = "VIOLATION"; r.kind = "CRASH"; r.detail = "exit " + std::to_string(WEXITSTATUS(status)) + " without verdict " + tail; }
    }
    return r;
}

// ---------------------------------------------------------------------------------------------
// schedule generation
// ---------------------------------------------------------------------------------------------
struct Profile { bool have = false; long steps = 3000; long ev[7] = { 0, 0, 0, 0, 0, 0, 0 }; };
static const char* EVN[7] = { "wake", "start", "firstpc", "sbload", "conflict", "rmw", "fwake" };
static inline void take_profile(Profile& p, const Result& r) {
    auto it = r.st.find("steps"); if (it == r.st.end()) return;
    p.have = true; p.steps = std::max(10L, it->second);
    for (int i = 0; i < 7; i++) { auto e = r.st.find(std::string("ev_") + EVN[i]); p.ev[i] = e == r.st.end() ? 0 : e->second; }
}
static inline std::string gen_sched(Src& s, const Profile& pf, bool allow_tso, bool first) {
    char b[256]; std::string o;
    bool tso = allow_tso && s.choose(3) == 2;
    uint32_t seed = 1 + s.choose(1u << 30);
    uint32_t st = first ? 0 : s.weighted({ 4, 2, 2, pf.have ? 6u : 0u });
    if (st == 0) { static const int ps[] = { 8, 2, 32 }; snprintf(b, sizeof b, "strat=walk p=%d", ps[s.choose(3)]); o = b; }
    else if (st == 1) { snprintf(b, sizeof b, "strat=pct d=%d est=%ld", 1 + (int)s.choose(4), pf.steps); o = b; }
    else if (st == 2) o = "strat=pos";
    else {
        static const int ps[] = { 8, 2, 32 }; snprintf(b, sizeof b, "strat=walk p=%d stall=", ps[s.choose(3)]); o = b;
        int ns = 1 + (int)s.weighted({ 5, 2, 1 });
        for (int i = 0; i < ns; i++) {
            // weights: wake, start, firstpc, sbload, conflict, rmw, fwake -- only classes that occurred
            uint32_t w[7] = { 5, 2, 4, tso ? 8u : 0u, 4, 3, 3 }; uint32_t tot = 0;
            for (int c = 0; c < 7; c++) { if (pf.ev[c] <= 0) w[c] = 0; tot += w[c]; }
            if (!tot) { w[1] = 1; tot = 1; }
            uint32_t r = s.choose(tot); int c = 0; while (r >= w[c]) { r -= w[c]; c++; }
            long cnt = std::max(1L, pf.ev[c]); long idx = 1 + (long)s.choose((uint32_t)std::min(cnt, 1000000L));
            static const long ds[] = { 500, 50, 5000, 100000 };
            snprintf(b, sizeof b, "%s%s:%ld:%ld", i ? "," : "", EVN[c], idx, ds[s.choose(4)]); o += b;
        }
    }
    snprintf(b, sizeof b, " seed=%u mem=%s", seed, tso ? "tso" : "sc"); o += b;
    if (tso) { snprintf(b, sizeof b, " w=%d fp=%d", (int)s.choose(9), s.flip() ? 16 : 0); o += b; }
    return o;
}

// ---------------------------------------------------------------------------------------------
// JSON helpers
// ---------------------------------------------------------------------------------------------
static inline std::string jesc(const std::string& s) {
    std::string o = "\""; char b[8];
    for (unsigned char c : s) { if (c == '"' || c == '\\') { o += '\\'; o += (char)c; } else if (c == '\n') o += "\\n"; else if (c < 0x20 || c >= 0x7f) { snprintf(b, sizeof b, "\\u%04x", c); o += b; } else o += (char)c; }
    return o + "\"";
}

// ---------------------------------------------------------------------------------------------
// drive
// ---------------------------------------------------------------------------------------------
struct DriveOpts { uint64_t seed = 1; long programs = 100, scheds = 4; bool tso = false; std::string enum_cls; long enum_cap = 300; std::string replay_dir = "."; long max_shrink = 250; double time_cap = 0; };

static inline Case make_case(const std::vector<uint32_t>& ptape, const std::string& sched, std::vector<uint32_t>* norm = nullptr) {
    Src s(ptape); Case c; c.lines = split_lines(h_gen(s)); c.sched = sched; if (norm) *norm = s.out; return c;
}
static inline bool same_failure(const Result& a, const Result& b) { return b.violation() && a.kind == b.kind; }

// Shrink the program's choice sequence (schedule descriptor kept), then try simpler schedules.
static inline void shrink(std::vector<uint32_t>& pt, std::string& sched, const Result& orig, long max_runs, long& runs) {
    std::set<uint64_t> tried; bool progress = true;
    auto attempt = [&](const std::vector<uint32_t>& cand, const std::string& sc) -> bool {
        std::vector<uint32_t> norm; Case c;
        try { c = make_case(cand, sc, &norm); } catch (GenOverrun&) { return false; }      // this candidate tape is not a valid program
        uint64_t h = fnv(c.text()); if (!tried.insert(h).second) return false;
        if (runs >= max_runs) return false; runs++;
        Result r = run_child(c.text());
        if (same_failure(orig, r)) { pt = norm; sched = sc; return true; }
        return false;
    };
    { std::vector<uint32_t> n; make_case(pt, sched, &n); pt = n; }
    while (progress && runs < max_runs) {
        progress = false;
        for (size_t blk = 8; blk >= 1; blk /= 2) {
            for (size_t i = 0; i + blk <= pt.size() && runs < max_runs;) {
                std::vector<uint32_t> c(pt); c.erase(c.begin() + (long)i, c.begin() + (long)(i + blk));
                if (attempt(c, sched)) progress = true; else i += blk;
            }
            if (blk == 1) break;
        }
        for (size_t i = 0; i < pt.size() && runs < max_runs; i++) {
            if (pt[i] == 0) continue;
            std::vector<uint32_t> c(pt); c[i] = 0;
            if (attempt(c, sched)) { progress = true; continue; }
            c = pt; c[i] = pt[i] / 2; if (c[i] != pt[i] && attempt(c, sched)) { progress = true; continue; }
            c = pt; c[i] = pt[i] - 1; if (attempt(c, sched)) progress = true;
        }
    }
    // simpler schedule descriptors for the shrunk program
    std::string seed = kvs(sched, "seed", "1"), mem = kvs(sched, "mem", "sc");
    std::vector<std::string> alts = { "strat=walk p=8 seed=" + seed + " mem=sc", "strat=walk p=8 seed=" + seed + " mem=" + mem, "strat=walk p=2 seed=" + seed + " mem=" + mem };
    for (auto& a : alts) if (a != sched && runs < max_runs && attempt(pt, a)) break;
}

static inline int drive_main(const DriveOpts& o) {
    long evals = 0, inconcl = 0, unstable = 0, shrink_runs = 0; std::map<std::string, long> cls_count, strat_count, incon_kinds, sums;
    std::set<uint64_t> nt_hashes; std::vector<std::string> samples_nt, samples_any, incon_samples;
    std::string viol_json; bool found = false;
    struct timespec ts0; clock_gettime(CLOCK_MONOTONIC, &ts0);
    auto elapsed = [&]() { struct timespec t; clock_gettime(CLOCK_MONOTONIC, &t); return (double)(t.tv_sec - ts0.tv_sec) + (t.tv_nsec - ts0.tv_nsec) * 1e-9; };
    long programs_done = 0;
    for (long pi = 0; pi < o.programs && !found; pi++) {
        if (o.time_cap > 0 && elapsed() > o.time_cap) break;
        Src ps(o.seed * 1000003ull + (uint64_t)pi * 7919ull + 17);
        std::string prog = h_gen(ps); std::vector<uint32_t> ptape = ps.out;
        Profile pf; programs_done++;
        std::vector<std::string> scheds;
        Src ss(o.seed * 2000003ull + (uint64_t)pi * 104729ull + 29);
        long nsched = o.scheds;
        for (long si = 0; si < nsched && !found; si++) {
            std::string sched;
            if (si == 0) { sched = gen_sched(ss, pf, false, true); if (o.tso) { size_t m = sched.find("mem=sc"); if (m != std::string::npos) sched.replace(m, 6, "mem=tso w=4 fp=16"); } }   // TSO profile: sb-load events get counted
            else if (!o.enum_cls.empty() && si >= 1) {
                // enumeration of one directed stall over every event of a class (thorough tier)
                int c = 0; for (int k = 0; k < 7; k++) if (o.enum_cls == EVN[k]) c = k;
                long cnt = std::min(pf.ev[c], o.enum_cap); if (si == 1) nsched = std::max(nsched, 1 + cnt);
                if (si > cnt) break;
                char b[200]; bool tso = o.tso && (c == 3 || (si & 1));
                snprintf(b, sizeof b, "strat=walk p=8 stall=%s:%ld:%d seed=%u mem=%s%s", EVN[c], si, (si % 3 == 0) ? 500 : 100000, 1 + ss.choose(1u << 30), tso ? "tso" : "sc", tso ? " w=8 fp=0" : "");
                sched = b;
            } else sched = gen_sched(ss, pf, o.tso, false);
            Case c; c.lines = split_lines(prog); c.sched = sched;
            std::string text = c.text();
            Result r = run_child(text); evals++;
            if (si == 0) take_profile(pf, r);
            strat_count[kvs(sched, "strat", "walk") + (sched.find("stall=") != std::string::npos ? "+stall" : "") + "/" + kvs(sched, "mem", "sc")]++;
            for (auto& kv : r.st) if (kv.first.rfind("n_", 0) == 0 || kv.first == "steps") sums[kv.first] += kv.second;
            if (r.verdict == "INCONCLUSIVE") { inconcl++; incon_kinds[r.kind]++; if (incon_samples.size() < 2) incon_samples.push_back(text + "# " + r.kind + " " + r.detail + "\n"); continue; }
            if (r.verdict == "OK") {
                bool nt = r.st.count("nt") && r.st["nt"] > 0;
                if (nt) { nt_hashes.insert(fnv(text)); if (samples_nt.size() < 2) samples_nt.push_back(text); }
                else if (samples_any.size() < 1) samples_any.push_back(text);
                for (auto& cl : split_ws([&] { std::string t = r.cls; for (auto& ch : t) if (ch == ',') ch = ' '; return t; }())) cls_count[cl]++;
                continue;
            }
            // violation: shrink, confirm 3/3
            std::vector<uint32_t> pt = ptape; std::string sc = sched;
            shrink(pt, sc, r, o.max_shrink, shrink_runs);
            Case fc = make_case(pt, sc); std::string ft = fc.text(); Result fr; int fails = 0;
            for (int k = 0; k < 3; k++) { fr = run_child(ft); if (same_failure(r, fr)) fails++; }
            if (fails < 3) {   // the shrunk one is not stable: fall back to the original case
                ft = text; fails = 0; for (int k = 0; k < 3; k++) { fr = run_child(ft); if (same_failure(r, fr)) fails++; }
            }
            if (fails < 3) { unstable++; continue; }
            char name[256]; snprintf(name, sizeof name, "%s/%s-%016llx.case", o.replay_dir.c_str(), H_PROP, (unsigned long long)fnv(ft));
            mkdir(o.replay_dir.c_str(), 0755);
            { FILE* f = fopen(name, "w"); if (f) { fputs(ft.c_str(), f); fprintf(f, "# verdict: %s %s %s\n", fr.verdict.c_str(), fr.kind.c_str(), fr.detail.c_str()); fclose(f); } }
            viol_json = "{\"kind\":" + jesc(fr.kind) + ",\"detail\":" + jesc(fr.detail) + ",\"replay\":" + jesc(name) + ",\"case\":" + jesc(ft) + ",\"original_case\":" + jesc(text) + "}";
            found = true;
        }
    }
    std::string j = "{";
    char b[256];
    snprintf(b, sizeof b, "\"property\":\"%s\",\"seed\":%llu,\"programs\":%ld,\"evaluations\":%ld,\"inconclusive\":%ld,\"unstable\":%ld,\"shrink_runs\":%ld,\"wall_s\":%.2f,", H_PROP, (unsigned long long)o.seed, programs_done, evals, inconcl, unstable, shrink_runs, elapsed()); j += b;
    j += "\"nontrivial_hashes\":["; { bool f = true; for (auto h : nt_hashes) { snprintf(b, sizeof b, "%s\"%016llx\"", f ? "" : ",", (unsigned long long)h); j += b; f = false; } } j += "],";
    auto mapj = [&](const char* name, std::map<std::string, long>& m) { j += std::string("\"") + name + "\":{"; bool f = true; for (auto& kv : m) { j += (f ? "" : ","); j += jesc(kv.first) + ":" + std::to_string(kv.second); f = false; } j += "},"; };
    mapj("classes", cls_count); mapj("strategies", strat_count); mapj("inconclusive_kinds", incon_kinds); mapj("sums", sums);
    j += "\"samples\":["; { bool f = true; for (auto& s : samples_nt) { j += (f ? "" : ","); j += jesc(s); f = false; } for (auto& s : samples_any) { j += (f ? "" : ","); j += jesc(s); f = false; } } j += "],";
    j += "\"inconclusive_samples\":["; { bool f = true; for (auto& s : incon_samples) { j += (f ? "" : ","); j += jesc(s); f = false; } } j += "],";
    j += "\"violations\":[" + viol_json + "]}";
    puts(j.c_str());
    return found ? 1 : 0;
}

static inline int drv_main(int argc, char** argv) {
    std::string mode = argc > 1 ? argv[1] : "";
    for (int i = 2; i < argc; i++) g_drv_args.push_back(argv[i]);
    auto arg = [&](const char* k, const char* def) -> std::string { for (int i = 2; i + 1 < argc; i++) if (!strcmp(argv[i], k)) return argv[i + 1]; return def; };
    auto has = [&](const char* k) { for (int i = 2; i < argc; i++) if (!strcmp(argv[i], k)) return true; return false; };
    if (mode == "run") {
        // The heap layout of the child must be a function of the program and sched lines only (oneTBB is address
        // sensitive): read into a static buffer and drop comment lines ("# verdict ...") before anything is allocated.
        static char buf[1 << 20]; size_t n = 0; ssize_t r;
        while (n < sizeof buf - 1 && (r = read(0, buf + n, sizeof buf - 1 - n)) > 0) n += (size_t)r;
        buf[n] = 0;
        Case c; c.sched.reserve(4096);
        for (char* p = buf; *p;) { char* e = strchr(p, '\n'); if (e) *e = 0; if (*p && *p != '#') { if (!strncmp(p, "sched ", 6)) c.sched.assign(p + 6); else c.lines.emplace_back(p); } if (!e) break; p = e + 1; }
        h_run(c);
        vs_ok();
    }
    if (mode == "gen") {
        long n = atol(arg("--programs", "3").c_str()); uint64_t seed = strtoull(arg("--seed", "1").c_str(), nullptr, 10);
        for (long i = 0; i < n; i++) { Src ps(seed * 1000003ull + (uint64_t)i * 7919ull + 17); std::string p = h_gen(ps); Profile pf; Src ss(seed + i); printf("%ssched %s\n---\n", p.c_str(), gen_sched(ss, pf, H_TSO && has("--tso"), !has("--anysched")).c_str()); }
        return 0;
    }
    if (mode == "replay") {
        std::ifstream f(argv[2]); std::stringstream ss; ss << f.rdbuf();
        g_child_trace = has("--trace");
        Result r = run_child(ss.str());
        printf("%s %s %s\n%s\n", r.verdict.c_str(), r.kind.c_str(), r.detail.c_str(), r.stats_line.c_str());
        if (!r.err.empty()) printf("stderr: %s\n", r.err.c_str());
        return r.violation() ? 1 : 0;
    }
    if (mode == "drive") {
        DriveOpts o; o.seed = strtoull(arg("--seed", "1").c_str(), nullptr, 10); o.programs = atol(arg("--programs", "100").c_str());
        o.scheds = atol(arg("--scheds", "4").c_str()); o.tso = H_TSO && has("--tso"); o.enum_cls = arg("--enum", ""); o.enum_cap = atol(arg("--enum-cap", "300").c_str());
        o.replay_dir = arg("--replay-dir", "."); o.max_shrink = atol(arg("--max-shrink", "250").c_str()); o.time_cap = atof(arg("--time-cap", "0").c_str());
        return drive_main(o);
    }
    fprintf(stderr, "usage: %s run|drive|gen|replay ...\n", argv[0]);
    return 2;
}
